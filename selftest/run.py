#!/usr/bin/env python3
"""Self-test of the checker: applies each seeded mutant (selftest/mutants/*.patch
and seeded/*/patch.diff) to a scratch copy of /repo (outside /repo and /verif),
checks that the mutant still compiles, runs the named property checks against
the copy (VERIF_REPO) and requires a VIOLATION whose text contains the expected
key fragment.  Also requires that the unmodified tree is silent.

usage: selftest/run.py [name-substring ...]
Mutant header lines (in the .patch file, before the diff):
  # property: C06[,C11]
  # expect: <substring of the obligation key or message that must be reported>
"""
import glob, os, re, shutil, subprocess, sys, tempfile, json

V = os.path.dirname(os.path.dirname(os.path.abspath(__file__)))
ENV = dict(os.environ, GOFLAGS="-mod=mod", GOPROXY="off", GOSUMDB="off", GOTOOLCHAIN="local")
ENV.pop("GOWORK", None)

def sh(cmd, **kw):
    return subprocess.run(cmd, shell=True, text=True, capture_output=True, env=kw.pop("env", ENV), **kw)

def mutants():
    l = []
    for f in sorted(glob.glob(os.path.join(V, "selftest/mutants/*.patch"))):
        props, expect = [], []
        for line in open(f):
            m = re.match(r"#\s*property:\s*(.*)", line)
            if m: props = [x.strip() for x in m.group(1).split(",")]
            m = re.match(r"#\s*expect:\s*(.*)", line)
            if m: expect.append(m.group(1).strip())
        l.append((os.path.basename(f)[:-6], f, props, expect))
    for d in sorted(glob.glob(os.path.join(V, "seeded/*/"))):
        meta = os.path.join(d, "meta.json")
        pf = os.path.join(d, "patch.diff")
        if os.path.exists(meta) and os.path.exists(pf):
            mj = json.load(open(meta))
            props = mj.get("caught_by") or [mj["property"]]
            l.append(("seeded/" + os.path.basename(d.rstrip("/")), pf, props, mj.get("expect", [])))
    return l

def benign():
    """Behaviour-preserving edits (selftest/benign/*.patch): the named checks must stay silent."""
    l = []
    for f in sorted(glob.glob(os.path.join(V, "selftest/benign/*.patch"))):
        props = []
        for line in open(f):
            m = re.match(r"#\s*property:\s*(.*)", line)
            if m: props = [x.strip() for x in m.group(1).split(",")]
        if props == ["ALL"]:
            props = [c["property_id"] for c in json.load(open(os.path.join(V, "MANIFEST.json")))["checks"]]
        l.append(("benign/" + os.path.basename(f)[:-6], f, props, None))
    return l

def sweep(prop):
    """Sensitivity sweep for one property (thorough tier): every mutant / seed that names the
    property is applied to a copy of /repo's CURRENT WORKING TREE; result goes into the evidence
    file as coverage.sensitivity.  Never changes the verdict."""
    repo = os.environ.get("VERIF_REPO", "/repo")
    evf = os.path.join(os.environ.get("VERIF_EVIDENCE_DIR") or os.path.join(V, "evidence"), prop + ".json")
    scratch = tempfile.mkdtemp(prefix="nssweep.")
    res = []
    spec = []
    try:
        for name, pf, props, expect in mutants():
            if prop not in props:
                continue
            work = os.path.join(scratch, "repo")
            shutil.rmtree(work, ignore_errors=True)
            sh("rsync -a --exclude .git %s/ %s/" % (repo, work))
            r = sh("patch -p1 --no-backup-if-mismatch < %s" % pf, cwd=work)
            if r.returncode != 0:
                res.append({"mutant": name, "result": "skipped: does not apply to the current tree"}); continue
            r = sh("go build ./... ", cwd=os.path.join(work, "go"))
            if r.returncode != 0:
                res.append({"mutant": name, "result": "skipped: does not compile on the current tree"}); continue
            env = dict(ENV, VERIF_REPO=work, VERIF_EVIDENCE_DIR=os.path.join(scratch, "ev"))
            if prop == "C19":
                r = sh("python3 %s/shell/c19.py quick" % V, env=env)
            else:
                r = sh("%s/bin/nscheck -property %s -tier quick" % (V, prop), env=env)
            caught = r.returncode == 1 and ("VIOLATION property=%s" % prop) in r.stdout and all(e in r.stdout for e in expect)
            res.append({"mutant": name, "result": "caught" if caught else "NOT caught", "expected_report": expect})
        # specificity: behaviour-preserving variants must leave the check silent
        for name, pf, props, _ in benign():
            if prop not in props:
                continue
            work = os.path.join(scratch, "repo")
            shutil.rmtree(work, ignore_errors=True)
            sh("rsync -a --exclude .git %s/ %s/" % (repo, work))
            r = sh("patch -p1 --no-backup-if-mismatch < %s" % pf, cwd=work)
            if r.returncode != 0:
                spec.append({"variant": name, "result": "skipped: does not apply to the current tree"}); continue
            r = sh("go build ./... ", cwd=os.path.join(work, "go"))
            if r.returncode != 0:
                spec.append({"variant": name, "result": "skipped: does not compile on the current tree"}); continue
            env = dict(ENV, VERIF_REPO=work, VERIF_EVIDENCE_DIR=os.path.join(scratch, "ev"))
            if prop == "C19":
                r = sh("python3 %s/shell/c19.py quick" % V, env=env)
            else:
                r = sh("%s/bin/nscheck -property %s -tier quick" % (V, prop), env=env)
            silent = r.returncode == 0 and "VIOLATION" not in r.stdout
            spec.append({"variant": name, "result": "silent" if silent else "ALARM"})
    finally:
        shutil.rmtree(scratch, ignore_errors=True)
    try:
        ev = json.load(open(evf))
        ev["coverage"]["specificity"] = {
            "what": "behaviour-preserving variants of /repo's current working tree (renamings, respellings, refactorings under which the property still holds) naming this property; 'silent' = the check exits 0 without a VIOLATION line. Informational: does not influence the verdict.",
            "variants": len(spec), "silent": sum(1 for x in spec if x["result"] == "silent"), "results": spec}
        ev["coverage"]["sensitivity"] = {
            "what": "seeded mutants and independently produced breaking changes naming this property, applied one at a time to a copy of /repo's current working tree; 'caught' = the check exits 1 with a VIOLATION naming the expected rule instance. Informational: does not influence the verdict.",
            "mutants": len(res), "caught": sum(1 for x in res if x["result"] == "caught"), "results": res}
        json.dump(ev, open(evf, "w"), indent=1)
    except Exception as e:
        print("sweep: cannot update evidence:", e)
    print("sensitivity sweep %s: %d mutants, %d caught, %d skipped" % (prop, len(res), sum(1 for x in res if x["result"] == "caught"), sum(1 for x in res if x["result"].startswith("skipped"))))
    print("specificity sweep %s: %d benign variants, %d silent" % (prop, len(spec), sum(1 for x in spec if x["result"] == "silent")))

def main():
    if len(sys.argv) == 3 and sys.argv[1] == "--sweep":
        sweep(sys.argv[2]); return
    sel = sys.argv[1:]
    # every scratch copy lives at a new path, so each build adds to Go's build cache; a long
    # session filled the disk that way.  Start from an empty cache when space gets short.
    st = os.statvfs(tempfile.gettempdir())
    if st.f_bavail * st.f_frsize < 40 << 30:
        subprocess.run(["go", "clean", "-cache"], check=False)
    sh(os.path.join(V, "bin/build"))
    from concurrent.futures import ThreadPoolExecutor
    todo = [m for m in mutants() + benign() if not sel or any(x in m[0] for x in sel)]
    def one(m):
        name, pf, props, expect = m
        if expect is None:
            return one_benign(m)
        if not props:
            return ("SKIP", name, "no property / not claimed caught")
        scratch = tempfile.mkdtemp(prefix="nsmut.")
        try:
            work = os.path.join(scratch, "repo")
            os.makedirs(work)
            sh("git -C /repo archive HEAD | tar -x -C %s" % work)
            r = sh("patch -p1 --no-backup-if-mismatch < %s" % pf, cwd=work)
            if r.returncode != 0:
                return ("FAIL", name, "patch does not apply\n" + r.stdout + r.stderr)
            r = sh("go build ./... ", cwd=os.path.join(work, "go"))
            if r.returncode != 0:
                return ("FAIL", name, "mutant does not compile\n" + r.stderr)
            env = dict(ENV, VERIF_REPO=work, VERIF_EVIDENCE_DIR=os.path.join(scratch, "ev"))
            out_all = ""
            for prop in props:
                if prop == "C19":
                    r = sh("python3 %s/shell/c19.py quick" % V, env=env)
                else:
                    r = sh("%s/bin/nscheck -property %s -tier quick" % (V, prop), env=env)
                out_all += r.stdout
                if r.returncode == 1 and "VIOLATION property=%s" % prop in r.stdout and all(e in r.stdout for e in expect):
                    return ("ok", name, "caught by " + ",".join(props))
            return ("FAIL", name, "not caught (expected %s)\n%s" % (expect, out_all[-1200:]))
        finally:
            shutil.rmtree(scratch, ignore_errors=True)
    def one_benign(m):
        name, pf, props, _ = m
        scratch = tempfile.mkdtemp(prefix="nsmut.")
        try:
            work = os.path.join(scratch, "repo")
            os.makedirs(work)
            sh("git -C /repo archive HEAD | tar -x -C %s" % work)
            r = sh("patch -p1 --no-backup-if-mismatch < %s" % pf, cwd=work)
            if r.returncode != 0:
                return ("FAIL", name, "patch does not apply\n" + r.stdout + r.stderr)
            r = sh("go build ./... ", cwd=os.path.join(work, "go"))
            if r.returncode != 0:
                return ("FAIL", name, "benign variant does not compile\n" + r.stderr)
            env = dict(ENV, VERIF_REPO=work, VERIF_EVIDENCE_DIR=os.path.join(scratch, "ev"))
            for prop in props:
                if prop == "C19":
                    r = sh("python3 %s/shell/c19.py quick" % V, env=env)
                else:
                    r = sh("%s/bin/nscheck -property %s -tier quick" % (V, prop), env=env)
                if r.returncode != 0 or "VIOLATION" in r.stdout:
                    return ("FAIL", name, "false alarm of %s on a behaviour-preserving edit\n%s" % (prop, r.stdout[-1200:]))
            return ("ok", name, "silent: " + ",".join(props))
        finally:
            shutil.rmtree(scratch, ignore_errors=True)
    fails = 0
    with ThreadPoolExecutor(max_workers=int(os.environ.get("SELFTEST_JOBS", "6"))) as ex:
        for st, name, msg in ex.map(one, todo):
            print("%-4s %s: %s" % (st, name, msg))
            if st == "FAIL":
                fails += 1
    print("selftest: %d mutants, %d failures" % (len(todo), fails))
    sys.exit(1 if fails else 0)

def _old_main_unused():
    sel = []
    scratch = tempfile.mkdtemp(prefix="nsmut.")
    fails = 0
    try:
        for name, pf, props, expect in mutants():
            if sel and not any(s in name for s in sel):
                continue
            if not props:
                print("SKIP %s (no property / not claimed caught)" % name)
                continue
            work = os.path.join(scratch, "repo")
            shutil.rmtree(work, ignore_errors=True)
            os.makedirs(work)
            sh("git -C /repo archive HEAD | tar -x -C %s" % work)
            # working-tree state of /repo (uncommitted edits) is not copied: mutants are relative to HEAD
            r = sh("patch -p1 --no-backup-if-mismatch < %s" % pf, cwd=work)
            if r.returncode != 0:
                print("FAIL %s: patch does not apply\n%s" % (name, r.stdout + r.stderr)); fails += 1; continue
            r = sh("go build ./... ", cwd=os.path.join(work, "go"))
            if r.returncode != 0:
                print("FAIL %s: mutant does not compile\n%s" % (name, r.stderr)); fails += 1; continue
            env = dict(ENV, VERIF_REPO=work, VERIF_EVIDENCE_DIR=os.path.join(scratch, "ev"))
            caught = False
            out_all = ""
            for prop in props:
                if prop == "C19":
                    r = sh("python3 %s/shell/c19.py quick" % V, env=env)
                else:
                    r = sh("%s/bin/nscheck -property %s -tier quick" % (V, prop), env=env)
                out_all += r.stdout
                if r.returncode == 1 and "VIOLATION property=%s" % prop in r.stdout:
                    if all(e in r.stdout for e in expect):
                        caught = True
            if caught:
                print("ok   %s: caught by %s" % (name, ",".join(props)))
            else:
                print("FAIL %s: not caught (expected %s)\n%s" % (name, expect, out_all[-1500:])); fails += 1
    finally:
        shutil.rmtree(scratch, ignore_errors=True)
    print("selftest: %d failures" % fails)
    sys.exit(1 if fails else 0)

main()
