#!/usr/bin/env python3
"""C19: structural rules on bin/newpolicy.sh (and its sibling scripts), decided on
bash's own parse of the script.  `bash -c '__top() { <script> }; declare -f __top'`
parses the text and pretty-prints it in canonical form WITHOUT executing any of
it (only a function is defined).  This file reads that dump into a tree and
checks ordering / who-may-write rules.  Nothing of the script is run.

usage: c19.py [quick|thorough]
"""
import json, os, re, subprocess, sys, time

START = time.time()
VERIF = os.environ.get("VERIF_DIR", os.path.dirname(os.path.dirname(os.path.abspath(__file__))))
REPO = os.environ.get("VERIF_REPO", "/repo")
TIER = sys.argv[1] if len(sys.argv) > 1 else os.environ.get("VERIF_TIER", "quick")
PROP = "C19"

obs = []
notes = []
rules = {}
keys = {}

def rule(i, t): rules[i] = t

def add(rule_id, key, pos, desc, ok, detail=""):
    full = rule_id + "|" + key
    keys[full] = keys.get(full, 0) + 1
    if keys[full] > 1:
        full += "#%d" % keys[full]
    obs.append({"rule": rule_id, "key": full, "pos": pos, "desc": desc,
                "status": "discharged" if ok else "violation", "detail": "" if ok else detail})

# ---------------------------------------------------------------- parsing

def canonical(path):
    """bash's canonical rendering of the script body as the body of a function."""
    return canonical_text(open(path).read(), path)

def canonical_text(src, path="<text>"):
    lines = src.split("\n")
    if lines and lines[0].startswith("#!"):
        lines = lines[1:]
    body = "\n".join(lines)
    prog = "__top() {\n" + body + "\n}\ndeclare -f __top"
    r = subprocess.run(["bash", "--norc", "--noprofile", "-c", prog], capture_output=True, text=True)
    if r.returncode != 0 or not r.stdout.startswith("__top ()"):
        raise RuntimeError("bash cannot parse %s: %s" % (path, r.stderr.strip()))
    return r.stdout

def split_top(s, seps):
    """split s at top-level occurrences of any separator in seps (outside quotes,
    $(...), `...`, (...) and {...}). Returns [(piece, sep_before)]."""
    out, cur, i, depth, q = [], "", 0, 0, None
    last = None
    while i < len(s):
        c = s[i]
        if q:
            cur += c
            if c == "\\" and q == '"' and i + 1 < len(s):
                cur += s[i + 1]; i += 1
            elif c == q:
                q = None
            i += 1; continue
        if c in "'\"":
            q = c; cur += c; i += 1; continue
        if c == "\\" and i + 1 < len(s):
            cur += s[i:i + 2]; i += 2; continue
        if c in "({" and (c == "(" or (i + 1 < len(s) and s[i + 1] == " ")) or s.startswith("$(", i):
            if s.startswith("$(", i):
                cur += "$("; i += 2
            else:
                cur += c; i += 1
            depth += 1; continue
        if c in ")}" and depth > 0:
            depth -= 1; cur += c; i += 1; continue
        if depth == 0:
            hit = None
            for sp in seps:
                if s.startswith(sp, i):
                    hit = sp; break
            if hit:
                out.append((cur.strip(), last)); cur = ""; last = hit.strip(); i += len(hit); continue
        cur += c; i += 1
    out.append((cur.strip(), last))
    return out

def words(cmd):
    """split a simple command into words (quotes and $(...) kept inside a word)."""
    return [norm_word(w) for w, _ in split_top(cmd, [" "]) if w != ""]

def norm_word(w):
    """one spelling for a variable reference: "$X", "${X}", ${X} -> $X (quotes around a word
    without blanks, braces not followed by a name character)."""
    if len(w) >= 2 and w[0] == '"' and w[-1] == '"' and '"' not in w[1:-1] and " " not in w[1:-1] and "\\" not in w:
        w = w[1:-1]
    return re.sub(r"\$\{([A-Za-z_][A-Za-z0-9_]*)\}(?![A-Za-z0-9_])", r"$\1", w)

class Node:
    def __init__(self, kind, **kw):
        self.kind = kind; self.__dict__.update(kw)

def parse_block(lines, i, indent):
    """parse statements at exactly this indentation; returns (nodes, next_i)"""
    nodes = []
    while i < len(lines):
        raw = lines[i]
        if raw.strip() == "":
            i += 1; continue
        ind = len(raw) - len(raw.lstrip(" "))
        if ind < indent:
            break
        line = raw.strip()
        # block closers belong to the caller
        if re.match(r"^(fi|done|esac)\b", line) or re.match(r"^(else|elif .*; then|\}|\)|\} \|.*|\};?)[;]?$", line) or line.startswith("} ") or line in ("};", "}"):
            break
        m = re.match(r"^function (\S+) \(\)\s*$", line)
        if m:
            # next line is "{"
            j = i + 1
            assert lines[j].strip() == "{", lines[j]
            body, j = parse_block(lines, j + 1, ind + 4)
            assert lines[j].strip() in ("}", "};"), lines[j]
            nodes.append(Node("func", name=m.group(1), body=body, line=i))
            i = j + 1; continue
        m = re.match(r"^if (.*); then$", line)
        if m:
            conds = [m.group(1)]
            thens, elses = [], None
            body, j = parse_block(lines, i + 1, ind + 4)
            thens.append(body)
            while True:
                l2 = lines[j].strip()
                m2 = re.match(r"^elif (.*); then$", l2)
                if m2:
                    conds.append(m2.group(1))
                    body, j = parse_block(lines, j + 1, ind + 4)
                    thens.append(body); continue
                if l2 == "else":
                    elses, j = parse_block(lines, j + 1, ind + 4)
                    continue
                assert l2.startswith("fi"), l2
                break
            nodes.append(Node("if", conds=conds, thens=thens, els=elses or [], line=i))
            i = j + 1; continue
        m = re.match(r"^(while|until) (.*); do$", line)
        if m:
            body, j = parse_block(lines, i + 1, ind + 4)
            assert lines[j].strip().startswith("done"), lines[j]
            nodes.append(Node("loop", cond=m.group(2), body=body, line=i))
            tail = lines[j].strip()[4:].strip().rstrip(";").lstrip("|& ").strip()
            if tail:
                nodes.append(Node("cmd", text=tail, line=j))
            i = j + 1; continue
        m = re.match(r"^for (.*); do$", line) or re.match(r"^for (.*)$", line)
        if m and line.startswith("for "):
            j = i + 1
            if not line.endswith("do"):
                assert lines[j].strip() == "do", lines[j]; j += 1
            body, j = parse_block(lines, j, ind + 4)
            assert lines[j].strip().startswith("done"), lines[j]
            nodes.append(Node("loop", cond="for " + m.group(1), body=body, line=i))
            tail = lines[j].strip()[4:].strip().rstrip(";").lstrip("|& ").strip()
            if tail:
                nodes.append(Node("cmd", text=tail, line=j))
            i = j + 1; continue
        if line.startswith("case "):
            # keep as opaque: collect until esac, commands inside are parsed flat
            j = i + 1; inner = []
            while not lines[j].strip().startswith("esac"):
                l2 = lines[j].strip().rstrip(";")
                if not l2.endswith(")") and l2 not in (";;",):
                    inner.append(Node("cmd", text=l2, line=j))
                j += 1
            nodes.append(Node("group", body=inner, tail="", line=i, sub=False))
            i = j + 1; continue
        if line == "{" or line.startswith("( "):
            # group or subshell; canonical form puts "(" + first command on one line
            sub = line.startswith("( ")
            if sub:
                # rewrite first line as a statement of the body
                first = line[2:]
                lines2 = lines[:]  # shallow
                lines2[i] = " " * (ind + 4) + first
                # find the closing: a line ending with " )" at deeper indent or same
                body_lines = []
                j = i
                while True:
                    l2 = lines2[j]
                    if l2.rstrip().endswith(" )") or l2.rstrip().endswith(" );"):
                        body_lines.append(re.sub(r" \);?$", "", l2.rstrip())); break
                    body_lines.append(l2); j += 1
                # normalise indentation of body lines to ind+4
                # (bash prints the statements of a subshell at the indentation of its "(" line and
                # nested bodies deeper: keep the relative indentation)
                norm = []
                for k, bl in enumerate(body_lines):
                    if k == 0:
                        norm.append(" " * (ind + 4) + bl.strip())
                    else:
                        extra = max(0, (len(bl) - len(bl.lstrip(" "))) - ind)
                        norm.append(" " * (ind + 4 + extra) + bl.strip())
                body, _ = parse_block(norm, 0, ind + 4)
                nodes.append(Node("group", body=body, tail="", line=i, sub=True))
                i = j + 1; continue
            body, j = parse_block(lines, i + 1, ind + 4)
            tail = lines[j].strip()
            assert tail.startswith("}"), tail
            nodes.append(Node("group", body=body, tail=tail[1:].strip().rstrip(";"), line=i, sub=False))
            i = j + 1; continue
        nodes.append(Node("cmd", text=line.rstrip(";"), line=i))
        i += 1
    return nodes, i

def parse_text(src):
    lines = canonical_text(src).split("\n")
    body, _ = parse_block(lines, 2, 4)
    return body

def parse_script(path):
    dump = canonical(path)
    lines = dump.split("\n")
    assert lines[0].startswith("__top ()") and lines[1].strip() == "{"
    body, j = parse_block(lines, 2, 4)
    return body, dump

# a flat view: every simple command with its context
class Cmd:
    def __init__(self, text, func, ctx, order, andor):
        self.text, self.func, self.ctx, self.order, self.andor = text, func, ctx, order, andor
        self.words = words(text)
    def __repr__(self): return "%s[%s] %s" % (self.func, "/".join(self.ctx), self.text)

def flatten(nodes, func, ctx, out):
    for n in nodes:
        if n.kind == "func":
            flatten(n.body, n.name, [], out)
        elif n.kind == "if":
            for k, c in enumerate(n.conds):
                emit(c, func, ctx + ["cond"], out)
                flatten(n.thens[k], func, ctx + ["then:" + c], out)
            flatten(n.els, func, ctx + ["else:" + n.conds[-1]], out)
        elif n.kind == "loop":
            emit(n.cond, func, ctx + ["cond"], out)
            flatten(n.body, func, ctx + ["loop"], out)
        elif n.kind == "group":
            flatten(n.body, func, ctx + (["subshell"] if n.sub else ["group"]), out)
            if n.tail:
                emit(n.tail.lstrip("|& "), func, ctx, out)
        else:
            emit(n.text, func, ctx, out)

def emit(text, func, ctx, out):
    # and-or lists and pipelines: every simple command is recorded; andor tells
    # what precedes it in the list
    for piece, sep in split_top(text, [" && ", " || "]):
        for p2, sep2 in split_top(piece, [" | "]):
            if p2:
                out.append(Cmd(p2, func, list(ctx), len(out), sep if sep2 is None else "|"))

# ---------------------------------------------------------------- rules

WRITERS = {"rm", "ln", "mv", "cp", "touch", "rmdir", "mkdir", "install", "rsync", "truncate", "tee", "unlink", "chmod", "chown", "sed", "dd"}
READERS = {"readlink", "[", "test", "basename", "dirname", "ls", "cat", "cd", "echo", "stat", "date", "find", "realpath"}

def refers_current(word, aliases):
    w = word.strip("\"'")
    for a in aliases:
        if a in w:
            return True
    return bool(re.search(r"(^|/)current($|[\"' ])", w)) or w == "current"

def writes_path(cmd, pred):
    """does simple command cmd write a path for which pred(word) holds?"""
    ws = cmd.words
    if not ws:
        return False
    # redirections
    for k, w in enumerate(ws):
        if w in (">", ">>", ">|", "<>") and k + 1 < len(ws) and pred(ws[k + 1]):
            return True
        m = re.match(r"^\d*(>>?|>\||<>)(.+)$", w)
        if m and pred(m.group(2)):
            return True
    name = os.path.basename(ws[0])
    if name in ("sudo", "exec", "command", "env", "nice", "xargs") and len(ws) > 1:
        return writes_path(Cmd(" ".join(ws[1:]), cmd.func, cmd.ctx, cmd.order, cmd.andor), pred)
    if name in WRITERS:
        return any(pred(w) for w in ws[1:] if not w.startswith("-"))
    return False

def main():
    rule("R19.a", "bin/newpolicy.sh: file descriptor N is opened on $POLICYDB/LOCK by a top-level `exec N<>...` before `main` is called; `main` is the only top-level command besides variable assignments and that exec; the first command of main is `flock [-n] N || exit <non-zero>` with the same N and without -s/-u (exclusive, non-blocking).")
    rule("R19.b", "Commands that write the link `current` ($CURRENT, $POLICYDB/current, .../policies/current: rm/ln/mv/cp/touch/... or a redirection) occur only inside handle_success of newpolicy.sh; no other shell script under bin/ writes it.")
    rule("R19.c", "handle_success is called at exactly one place: the `then` branch of an `if` whose condition is the compiler invocation (`netspoc $PSRC $PCODE`), inside main; it is not called from an else branch, a loop condition or any other function.")
    rule("R19.d", "Inside handle_success the rename of the work directory (`mv next $POLICY`) precedes every command that writes `current`; the link is created by `ln -s $POLICY $CURRENT` (target = the freshly renamed directory) after `rm -f $CURRENT`, or switched atomically by `ln -sfn $POLICY $CURRENT.<tmp>; mv -T $CURRENT.<tmp> $CURRENT` (the -n, or a preceding rm of the temporary name, is required: otherwise a stale temporary link of a killed run is followed); no command between the mv and the ln changes directory or reassigns POLICY/CURRENT.")
    rule("R19.e", "Outside handle_success `$CURRENT` is only read (readlink, test, assignment of another variable); `next` is only built in prepare_next (rm -rf/mkdir $NEXT) and renamed in handle_success.")
    rule("R19.f", "Policy numbers: POLICY is assigned only as p$COUNT in prepare_next, after COUNT=$(expr $COUNT + 1), which follows the assignment of COUNT to the maximum of FCOUNT (POLICY file) and LCOUNT (link), recognised in its test-and-echo spelling; LCOUNT is derived from $(readlink $CURRENT).")
    path = os.path.join(REPO, "bin", "newpolicy.sh")
    try:
        tree, dump = parse_script(path)
    except Exception as e:
        add("R19.a", "parse|newpolicy.sh", "bin/newpolicy.sh", "bash can parse the script", False, str(e))
        return finish()
    cmds = []
    flatten(tree, "<top>", [], cmds)
    funcs = {n.name: n for n in tree if n.kind == "func"}
    add("R19.a", "parse|newpolicy.sh", "bin/newpolicy.sh", "parsed by bash: %d functions, %d simple commands" % (len(funcs), len(cmds)), len(funcs) >= 5 and len(cmds) >= 60,
        "fewer functions/commands than confirmed by hand: parser or script changed fundamentally")

    # variable aliases of the link
    aliases = {"$CURRENT", "${CURRENT}", "$POLICYDB/current", "${POLICYDB}/current", "policies/current"}
    cur = lambda w: refers_current(w, aliases)

    # ---- R19.a
    top = [c for c in cmds if c.func == "<top>"]
    execs = [c for c in top if c.words and c.words[0] == "exec"]
    fd = None
    for c in execs:
        m = re.match(r"^(\d+)<>$", c.words[1]) if len(c.words) > 2 else None
        m2 = re.match(r"^(\d+)<>(.+)$", c.words[1]) if len(c.words) > 1 else None
        target = None
        if m: fd, target = m.group(1), c.words[2]
        elif m2: fd, target = m2.group(1), m2.group(2)
        if fd:
            add("R19.a", "lock-fd-open", "bin/newpolicy.sh", "top-level `%s` opens fd %s" % (c.text, fd),
                target in ("$POLICYDB/LOCK", "${POLICYDB}/LOCK"), "lock file is not $POLICYDB/LOCK")
    if fd is None:
        add("R19.a", "lock-fd-open", "bin/newpolicy.sh", "no top-level exec N<> $POLICYDB/LOCK", False, "lock descriptor not opened")
    # builtins that neither touch the database nor the control flow; traps are judged by R19.j
    PURE_TOP = {"echo", "printf", ":", "true", "umask", "export", "readonly", "trap"}
    calls = [c for c in top if c.words and not re.match(r"^[A-Za-z_][A-Za-z0-9_]*=", c.words[0]) and c.words[0] != "exec"
             and not (c.words[0] in PURE_TOP and not any(re.match(r"^\d*(>>?|>\||<>)", w) for w in c.words[1:]))]
    add("R19.a", "only-main-at-top", "bin/newpolicy.sh", "top-level commands other than assignments/exec/trap/echo: %s" % [c.text for c in calls],
        len(calls) == 1 and calls[0].words[0] == "main", "something other than `main` runs at top level (outside the lock)")
    if execs and calls:
        add("R19.a", "fd-before-main", "bin/newpolicy.sh", "lock descriptor is opened before main is called", execs[0].order < calls[0].order, "")
    mainc = [c for c in cmds if c.func == "main"]
    ok = False
    detail = "first command of main is not `flock -n %s || exit 1`" % fd
    if len(mainc) >= 2:
        f, e = mainc[0], mainc[1]
        if f.words and f.words[0] == "flock" and fd in f.words[1:] and not any(w in ("-s", "--shared", "-u", "--unlock") for w in f.words) \
           and any(w in ("-n", "--nonblock", "--nb") for w in f.words) \
           and e.andor == "||" and e.words[0] == "exit" and len(e.words) > 1 and e.words[1] not in ("0",):
            ok = True
    add("R19.a", "flock-first", "bin/newpolicy.sh", "main starts with `%s %s %s`" % (mainc[0].text if mainc else "", mainc[1].andor if len(mainc) > 1 else "", mainc[1].text if len(mainc) > 1 else ""), ok, detail)

    # ---- R19.j: a trapped signal still ends the run
    rule("R19.j", "A kill still stops the run: every `trap` for a real signal (anything but EXIT/0, ERR, DEBUG, RETURN) either ignores or resets the signal (handler '' or -) or its handler -- a function of the script or an inline command list, parsed by bash -- ends with an unconditional `exit`. A handler that returns lets the script continue after the interrupted command as if that command had finished (a killed compile would be taken for done). Functions that are such exiting handlers may remove the work directory `next`.")
    exiting_handlers = set()
    for c in cmds:
        if c.words[:1] != ["trap"] or len(c.words) < 3 or c.words[1].startswith("-") and c.words[1] != "-":
            continue
        h, sigs = c.words[1], c.words[2:]
        real = [x for x in sigs if x.upper().replace("SIG", "") not in ("EXIT", "0", "ERR", "DEBUG", "RETURN")]
        if not real:
            continue
        ht = h
        if len(ht) >= 2 and ht[0] in "'\"" and ht[-1] == ht[0]:
            ht = ht[1:-1]
        if ht in ("", "-"):
            add("R19.j", "trap|%s|%s" % (c.func, " ".join(real)), "bin/newpolicy.sh", "`%s` ignores/resets the signal" % c.text, True)
            continue
        hc = []
        if ht in funcs:
            flatten(funcs[ht].body, ht, [], hc)
        else:
            try:
                flatten(parse_text(ht), "<trap>", [], hc)
            except Exception as e:
                add("R19.j", "trap|%s|%s" % (c.func, " ".join(real)), "bin/newpolicy.sh", "`%s`" % c.text, False, "handler cannot be parsed: %s" % e)
                continue
        last = hc[-1] if hc else None
        ends = last is not None and last.words[:1] == ["exit"] and not last.ctx and last.andor in (None, "")
        if ends and ht in funcs:
            exiting_handlers.add(ht)
        add("R19.j", "trap|%s|%s" % (c.func, " ".join(real)), "bin/newpolicy.sh", "`%s`: handler ends with `%s`" % (c.text, last.text if last else ""), ends,
            "the handler returns: after the signal the script goes on behind the interrupted command as if it had succeeded or failed normally")

    # ---- R19.h: the lock is never given up before the process ends
    rule("R19.h", "The lock is held until the process exits: no command of newpolicy.sh unlocks or re-locks the lock descriptor (`flock -u`, any further `flock` on it), closes it (`N>&-`, `N<&-`) or re-opens it (`exec N...` other than the one top-level open); so everything the script does after the initial flock happens under the lock.")
    if fd is not None:
        bad = []
        for c in cmds:
            if not c.words:
                continue
            w0 = os.path.basename(c.words[0])
            is_initial_flock = c.func == "main" and mainc and c is mainc[0]
            if w0 == "flock" and not is_initial_flock:
                if fd in c.words[1:] or any(x in ("-u", "--unlock") for x in c.words[1:]) or any(re.match(r"^-[a-z]*u", x) for x in c.words[1:]):
                    bad.append("%s: `%s`" % (c.func, c.text))
            for w in c.words:
                if re.match(r"^%s[<>]&-$" % fd, w):
                    bad.append("%s: `%s` closes the lock descriptor" % (c.func, c.text))
            if w0 == "exec" and c.func != "<top>" and any(re.match(r"^%s(<>|<|>)" % fd, w) for w in c.words[1:]):
                bad.append("%s: `%s` re-opens the lock descriptor" % (c.func, c.text))
        add("R19.h", "lock-never-released", "bin/newpolicy.sh", "no unlock / close / re-open of descriptor %s after the initial flock" % fd, not bad,
            "the lock is given up while the run continues; a second newpolicy.sh can work on the database at the same time: %s" % "; ".join(bad))

    # ---- R19.i: a reverted bad commit is followed by a fresh compile in the same run
    rule("R19.i", "After a bad commit was reverted the run compiles again: in main, `try_revert` is the condition of an `if` inside the retry loop whose then-branch is an unconditional `continue` (back to prepare_next); `uptodate` is consulted only before the loop, never inside it (inside the loop it would look at the clone that has just pushed the revert and call it up to date). Otherwise the newest compiling revision is not made current by this run, and later runs stop at `uptodate` as well.")
    tr = [c for c in mainc if c.words[:1] == ["try_revert"]]
    cont = [c for c in mainc if c.words[:1] == ["continue"] and c.ctx and c.ctx[-1] == "then:try_revert" and "loop" in c.ctx and c.andor in (None, "")]
    ok_tr = len(tr) == 1 and tr[0].ctx[-1:] == ["cond"] and "loop" in tr[0].ctx and len(cont) == 1
    add("R19.i", "retry-after-revert", "bin/newpolicy.sh", "`if try_revert; then continue` inside the retry loop of main: %s" % [(c.text, c.ctx) for c in tr + cont], ok_tr,
        "after a successful revert the loop does not unconditionally start over with prepare_next: the reverted state is never compiled")
    up_in_loop = [c for c in mainc if c.words[:1] == ["uptodate"] and "loop" in c.ctx]
    add("R19.i", "uptodate-only-before-loop", "bin/newpolicy.sh", "`uptodate` is not called inside the retry loop", not up_in_loop,
        "uptodate inside the loop compares with the clone that just pushed the revert: %s" % [c.text for c in up_in_loop])

    # ---- R19.m: the verdict of a function that is used as a condition is stated explicitly
    rule("R19.m", "A function of the script whose exit status decides a branch of main (`if try_revert; then continue`, `uptodate && exit`) states its verdict explicitly: its last command, outside any if or loop, is `return N`, `exit N` or a test (`[ ... ]`, true, false). A function that falls off its end returns the status of whatever ran last -- a `mail` that could not be delivered after the revert was pushed reads as `no revert`: the loop ends, the reverted state is never compiled, and every later run finds its clone up to date.")
    verdict_fns = sorted({c.words[0] for c in mainc if c.words and c.words[0] in funcs and (c.ctx[-1:] == ["cond"] or any(d.order == c.order + 1 and d.andor in ("&&", "||") for d in mainc))})
    for f in verdict_fns:
        body = [c for c in cmds if c.func == f]
        last = max(body, key=lambda c: c.order) if body else None
        okv = (last is not None and last.words[:1] in (["return"], ["exit"], ["["], ["[["], ["test"], ["true"], ["false"])
               and last.andor in (None, "") and all(x in ("subshell", "group") for x in last.ctx))
        add("R19.m", "explicit-verdict|" + f, "bin/newpolicy.sh", "`%s` is used as a condition in main; its last command is `%s`" % (f, last.text if last else ""), okv,
            "the function ends without an explicit return: its verdict is the exit status of its last command")
    add("R19.m", "floor|verdict-functions", "bin/newpolicy.sh", "%d function(s) used as conditions in main: %s" % (len(verdict_fns), verdict_fns), len(verdict_fns) >= 1, "")

    # ---- R19.b / R19.e
    writers = [c for c in cmds if writes_path(c, cur)]
    add("R19.b", "floor|writers-of-current", "bin/newpolicy.sh", "%d commands write `current`" % len(writers), len(writers) >= 2, "expected at least rm and ln")
    for c in writers:
        add("R19.b", "writer|%s|%s" % (c.func, c.words[0]), "bin/newpolicy.sh", "`%s` in %s" % (c.text, c.func), c.func == "handle_success",
            "`current` is modified outside handle_success: a failed compile or another phase can change the link")
    for c in cmds:
        if c.func == "handle_success" or c in writers:
            continue
        if any(cur(w) for w in c.words):
            name = c.words[0]
            ro = name in READERS or re.match(r"^[A-Za-z_][A-Za-z0-9_]*=", name) is not None
            add("R19.e", "reader|%s|%s" % (c.func, name.split("=")[0]), "bin/newpolicy.sh", "`%s` in %s only reads `current`" % (c.text, c.func), ro,
                "unclassified command operates on `current` outside handle_success")
    # `next`
    nx = lambda w: w.strip("\"'") in ("$NEXT", "${NEXT}", "next", "$POLICYDB/next")
    for c in cmds:
        if writes_path(c, nx):
            okf = c.func in ("prepare_next", "handle_success") or c.func in exiting_handlers
            add("R19.e", "next-writer|%s|%s" % (c.func, c.words[0]), "bin/newpolicy.sh", "`%s` in %s" % (c.text, c.func), okf, "work directory modified in an unexpected phase")

    # ---- R19.l: every build starts from an empty work directory
    rule("R19.l", "Every build starts from an empty work directory: prepare_next removes `next` unconditionally (`rm -rf $NEXT`, not inside an if/loop/and-or list) and creates it anew (`mkdir $NEXT`) before any other command of prepare_next names a path below it (redirection to $PLOG, clone into src, mkdir $PCODE). What a killed or failed earlier build left in next/code would otherwise be renamed to pN with the next successful compile: `current` then names a directory that no compile of its src produces.")
    pn = [c for c in cmds if c.func == "prepare_next"]
    rmn = [c for c in pn if c.words and c.words[0] == "rm" and any(nx(w) for w in c.words[1:])]
    mkn = [c for c in pn if c.words and c.words[0] == "mkdir" and any(nx(w) for w in c.words[1:])]
    rm_ok = len(rmn) >= 1 and not rmn[0].ctx and not rmn[0].andor and any(re.match(r"^-[a-zA-Z]*r", w) or w == "--recursive" for w in rmn[0].words[1:])
    add("R19.l", "work-dir-removed", "bin/newpolicy.sh", "prepare_next removes the work directory unconditionally: %s" % [(c.text, c.ctx) for c in rmn], rm_ok,
        "leftovers of an earlier unfinished build survive into the next policy")
    mk_ok = len(mkn) >= 1 and not mkn[0].ctx and bool(rmn) and rmn[0].order < mkn[0].order
    add("R19.l", "work-dir-created-after-removal", "bin/newpolicy.sh", "`mkdir $NEXT` follows the removal unconditionally: %s" % [(c.text, c.ctx) for c in mkn], mk_ok, "")
    if rmn:
        below = lambda w: re.search(r"\$\{?(NEXT|PSRC|PCODE|PLOG)\b", w) is not None
        early = [c.text for c in pn if c.order < rmn[0].order and not re.match(r"^[A-Za-z_][A-Za-z0-9_]*=", c.words[0] if c.words else "") and (any(below(w) for w in c.words) or any(below(str(x)) for x in getattr(c, "redirs", [])))]
        add("R19.l", "nothing-below-before-removal", "bin/newpolicy.sh", "no command of prepare_next uses a path below `next` before the removal", not early, "used before the removal: %s" % early)

    # other scripts in bin/
    others = 0
    for fn in sorted(os.listdir(os.path.join(REPO, "bin"))):
        p2 = os.path.join(REPO, "bin", fn)
        if fn == "newpolicy.sh" or not os.path.isfile(p2):
            continue
        first = open(p2, errors="replace").readline()
        if not re.match(r"^#!.*\b(sh|bash)\b", first):
            notes.append("bin/%s is not a shell script (%s): not analysed" % (fn, first.strip()))
            continue
        try:
            t2, _ = parse_script(p2)
        except Exception as e:
            add("R19.b", "parse|" + fn, "bin/" + fn, "bash can parse the script", False, str(e)); continue
        c2 = []
        flatten(t2, "<top>", [], c2)
        others += 1
        bad = [c.text for c in c2 if writes_path(c, cur)]
        add("R19.b", "other-script|" + fn, "bin/" + fn, "%d commands, none writes `current`" % len(c2), not bad, "writes current: %s" % bad)
    add("R19.b", "floor|other-scripts", "bin/", "%d sibling shell scripts analysed" % others, others >= 5, "")

    # ---- R19.k: the lock file is not removed under a running newpolicy.sh
    rule("R19.k", "No script under bin/ can remove policies/LOCK: no rm / mv / unlink names it, and no destructive find (-delete, -exec rm) starts at the policies directory, reaches its entries and lacks `! -name LOCK` (variables replaced by every value the script assigns, incl. `for V in words`). flock is held on the open file, not on the name: once the file is unlinked the next newpolicy.sh creates and locks a new one while the first still works on the database. (The mtime of LOCK is the end of the last processing run, so age is no protection after a quiet period.)")
    for f in lockdir_facts("policylock"):
        add("R19.k", "policy-lock-kept|bin/" + f["script"], "bin/" + f["script"], "%d simple commands, none can remove policies/LOCK" % f["commands"], f["ok"],
            "the lock file of newpolicy.sh can be removed while a run holds it: " + f["detail"])

    # ---- R19.c
    hs_calls = [c for c in cmds if c.words and c.words[0] == "handle_success"]
    add("R19.c", "single-call", "bin/newpolicy.sh", "handle_success is called %d time(s)" % len(hs_calls), len(hs_calls) == 1, "")
    for c in hs_calls:
        inthen = [x for x in c.ctx if x.startswith("then:")]
        okc = c.func == "main" and len(inthen) >= 1 and inthen[-1].startswith("then:netspoc ") and \
            not any(x.startswith("else:") for x in c.ctx[c.ctx.index(inthen[-1]):]) and c.andor in (None, "")
        # redirections on the compiler invocation (2>&1, >>log, N>&-) do not change what the condition tests
        cond = re.sub(r"\s+\d*(?:>>?|<|>&|<&|&>)\s*\S+", "", inthen[-1] if inthen else "")
        okc = okc and re.match(r"^then:netspoc \$PSRC \$PCODE$", cond) is not None
        add("R19.c", "call-in-success-branch", "bin/newpolicy.sh", "handle_success called in %s under %s" % (c.func, c.ctx), okc,
            "handle_success (the only writer of `current`) is reachable without a successful compile")

    # ---- R19.d
    hs = [c for c in cmds if c.func == "handle_success"]
    mv = [c for c in hs if c.words[:1] == ["mv"] and len(c.words) == 3 and c.words[1] in ("next", "$NEXT") and c.words[2] in ("$POLICY", "${POLICY}")]
    CURW = ("$CURRENT", "${CURRENT}")
    istmp = lambda w: any(w.startswith(c + ".") or w.startswith(c + "-") or w.startswith(c + "_") for c in CURW)
    ln = [c for c in hs if c.words[:1] == ["ln"] and cur(c.words[-1])]
    rm = [c for c in hs if c.words[:1] == ["rm"] and any(cur(w) and not istmp(w) for w in c.words[1:])]
    add("R19.d", "rename-exists", "bin/newpolicy.sh", "`mv next $POLICY` in handle_success", len(mv) == 1 and not mv[0].ctx, "rename missing or conditional")
    # form A: rm -f $CURRENT; ln -s $POLICY $CURRENT.  form B (atomic switch): ln -sfn $POLICY $CURRENT.tmp; mv -T $CURRENT.tmp $CURRENT
    okA = len(ln) == 1 and ln[0].words[1:] in (["-s", "$POLICY", "$CURRENT"], ["-sfn", "$POLICY", "$CURRENT"], ["-sf", "$POLICY", "$CURRENT"]) and not ln[0].ctx
    okB, whyB = False, ""
    if len(ln) == 1 and len(ln[0].words) == 4 and istmp(ln[0].words[3]) and ln[0].words[2] in ("$POLICY", "${POLICY}") and not ln[0].ctx:
        opts, tmp = ln[0].words[1], ln[0].words[3]
        swap = [c for c in hs if c.words[:1] == ["mv"] and len(c.words) == 4 and c.words[1].startswith("-") and "T" in c.words[1] and c.words[2] == tmp and c.words[3] in CURW]
        cleared = [c for c in hs if c.words[:1] == ["rm"] and tmp in c.words[1:] and c.order < ln[0].order and not c.ctx]
        if not (opts.startswith("-") and "s" in opts):
            whyB = "temporary link is not symbolic"
        elif not ("n" in opts or cleared):
            whyB = "`ln` without -n follows a stale temporary link left by a killed run (and creates the new link inside the old policy directory); the switch then re-installs the old policy"
        elif not (len(swap) == 1 and not swap[0].ctx and swap[0].order > ln[0].order):
            whyB = "temporary link is not renamed onto $CURRENT by an unconditional `mv -T`"
        else:
            okB = True
            ln = [swap[0]]  # the switching command for the ordering rules below
    add("R19.d", "link-exists", "bin/newpolicy.sh", "`ln -s $POLICY $CURRENT` (or the atomic form `ln -sfn $POLICY $CURRENT.tmp; mv -T $CURRENT.tmp $CURRENT`) in handle_success",
        okA or okB, "link is not created to $POLICY" + (": " + whyB if whyB else ""))
    if mv and ln:
        for w in [c for c in hs if writes_path(c, cur)]:
            add("R19.d", "rename-before|" + w.words[0], "bin/newpolicy.sh", "`%s` comes after the rename" % w.text, mv[0].order < w.order,
                "`current` is touched before the new directory has its final name")
        between = [c for c in hs if mv[0].order < c.order < ln[0].order]
        badb = [c.text for c in between if c.words[0] in ("cd", "pushd", "popd") or re.match(r"^(POLICY|CURRENT|POLICYDB)=", c.words[0])]
        add("R19.d", "nothing-moves-between", "bin/newpolicy.sh", "commands between mv and ln: %s" % [c.text for c in between], not badb, "directory or variables change between rename and link: %s" % badb)
        # cd $POLICYDB precedes mv (relative name `next`)
        cds = [c for c in hs if c.words[:1] == ["cd"] and c.order < mv[0].order]
        add("R19.d", "cd-policydb", "bin/newpolicy.sh", "last cd before the rename is `cd $POLICYDB`", bool(cds) and cds[-1].words[1:] == ["$POLICYDB"], "rename of relative `next` happens in another directory")
    if rm and ln:
        add("R19.d", "rm-before-ln", "bin/newpolicy.sh", "old link removed before the new one is created", rm[0].order < ln[0].order, "")

    # ---- R19.g: the new number is published before it is used
    rule("R19.g", "In handle_success the POLICY file with the new number is written, added to the index, committed and pushed (`echo ... > POLICY`, `git add POLICY`, `git commit`, `git push`) before `mv next $POLICY` gives the directory its final name: a run killed between the rename and the link switch leaves the number recorded in the repository, so the next run (max of POLICY file and link, plus one) does not reuse it.")
    wr = [c for c in hs if any(re.match(r"^>+POLICY$", w) or w == "POLICY" and k > 0 and c.words[k-1] in (">", ">>") for k, w in enumerate(c.words)) or c.text.rstrip().endswith("> POLICY")]
    commit = [c for c in hs if c.words[:2] == ["git", "commit"]]
    push = [c for c in hs if c.words[:2] == ["git", "push"]]
    add("R19.g", "policy-file-written", "bin/newpolicy.sh", "POLICY file written with $POLICY in handle_success: %s" % [c.text for c in wr],
        len(wr) >= 1 and "$POLICY" in wr[0].text, "")
    okpub = bool(wr and commit and push and mv) and wr[0].order < commit[0].order < push[0].order < mv[0].order and not push[0].ctx and not commit[0].ctx
    add("R19.g", "published-before-rename", "bin/newpolicy.sh", "write POLICY < git commit < git push < mv next $POLICY", okpub,
        "the new policy number is not durable in the repository when the directory is renamed: after a kill at the link switch the number is reused (mv nests the new compile inside the old pN)")

    # the file is in the commit: `git commit -a` takes only files git already tracks; in a repository
    # that has no POLICY file yet the number would never be committed.  Accepted: `git add` naming
    # POLICY (or everything: -A / --all / .) between the write and the commit, or a commit that
    # names the path itself (`git commit ... POLICY`, which needs a tracked file only with -o/-i; with
    # an explicit `git add` in front it is the same thing).
    def adds_policy(c):
        if c.words[:2] != ["git", "add"]:
            return False
        rest = c.words[2:]
        return any(w in ("POLICY", "./POLICY", "-A", "--all", ".") for w in rest)
    gadd = [c for c in hs if adds_policy(c)]
    okadd = bool(wr and commit and gadd) and any(wr[0].order < a.order < commit[0].order and not a.ctx for a in gadd)
    add("R19.g", "policy-file-added", "bin/newpolicy.sh", "`git add POLICY` between writing the file and `git commit`: %s" % [c.text for c in gadd], okadd,
        "the POLICY file is not added to the index before the commit: in a repository without a tracked POLICY file (`git commit -a` skips untracked files) the number is never recorded, and after a lost link the numbering restarts")

    # what was pulled while compiling is not part of this policy: after the push the work copy is set
    # back to the commit of this run, so that the next run sees the pulled commits as new.
    # `HASH=$(git log -n 1 ...)` after the commit and before the pull, `git reset --hard $HASH` after the push.
    hashc = [c for c in hs if re.match(r"^HASH=\$\(git (log|rev-parse)\b", c.text)]
    pull = [c for c in hs if c.words[:2] == ["git", "pull"]]
    reset = [c for c in hs if c.words[:3] == ["git", "reset", "--hard"] and c.words[3:4] == ["$HASH"]]
    okreset = bool(commit and hashc and push and reset) and commit[0].order < hashc[0].order and (not pull or hashc[0].order < pull[0].order) \
        and push[0].order < reset[0].order and not reset[0].ctx and not hashc[0].ctx
    add("R19.g", "pulled-commits-set-aside", "bin/newpolicy.sh", "HASH taken after the commit and before the pull, `git reset --hard $HASH` after the push: %s" % [c.text for c in hashc + reset], okreset,
        "commits that were pulled while this run compiled stay in the work copy of the new policy: `uptodate` then finds nothing new, and the newest revision is never compiled")

    # ---- R19.f
    pn = [c for c in cmds if c.func == "prepare_next"]
    pol = [c for c in cmds if re.match(r"^POLICY=", c.words[0])]
    add("R19.f", "policy-assign", "bin/newpolicy.sh", "POLICY assigned: %s" % [(c.func, c.text) for c in pol],
        len(pol) == 1 and pol[0].func == "prepare_next" and pol[0].text in ("POLICY=p$COUNT", "POLICY=p${COUNT}") and not pol[0].ctx, "")
    cnt = [c for c in pn if re.match(r"^COUNT=", c.words[0])]
    inc_ok = len(cnt) == 2 and re.match(r"^COUNT=\$\(expr \$COUNT \+ 1\)$", cnt[1].text) is not None and not cnt[1].ctx
    add("R19.f", "count-increment", "bin/newpolicy.sh", "COUNT assignments: %s" % [c.text for c in cnt], inc_ok and (not pol or cnt[1].order < pol[0].order), "increment by one missing or misplaced")
    mx = False
    if cnt:
        t = cnt[0].text
        pats = [r"^COUNT=\$\(\[ \$FCOUNT -g[te] \$LCOUNT \] && echo \$FCOUNT \|\| echo \$LCOUNT\)$",
                r"^COUNT=\$\(\[ \$LCOUNT -g[te] \$FCOUNT \] && echo \$LCOUNT \|\| echo \$FCOUNT\)$",
                r"^COUNT=\$\(\[ \$FCOUNT -l[te] \$LCOUNT \] && echo \$LCOUNT \|\| echo \$FCOUNT\)$",
                r"^COUNT=\$\(\[ \$LCOUNT -l[te] \$FCOUNT \] && echo \$FCOUNT \|\| echo \$LCOUNT\)$",
                r"^COUNT=\$\(\(\s*FCOUNT\s*>=?\s*LCOUNT\s*\?\s*FCOUNT\s*:\s*LCOUNT\s*\)\)$"]
        mx = any(re.match(p, t) for p in pats)
    add("R19.f", "count-is-max", "bin/newpolicy.sh", "COUNT starts as max(FCOUNT, LCOUNT): `%s`" % (cnt[0].text if cnt else ""), mx,
        "the next number is not derived from the maximum of POLICY file and link: numbers can repeat or go backwards")
    lc = [c for c in pn if re.match(r"^LCOUNT=\$\(", c.words[0])]
    pv = [c for c in pn if re.match(r"^PREV_POLICY=\$\(readlink \$CURRENT\)$", c.text)]
    add("R19.f", "lcount-from-link", "bin/newpolicy.sh", "LCOUNT derived from PREV_POLICY=$(readlink $CURRENT)",
        len(pv) == 1 and len(lc) == 1 and "$PREV_POLICY" in lc[0].text and pv[0].order < lc[0].order, "")
    # LCOUNT/FCOUNT default 0 when empty
    dflt = [c.text for c in pn if c.text in ("LCOUNT=0", "FCOUNT=0")]
    add("R19.f", "count-defaults", "bin/newpolicy.sh", "empty counters default to 0: %s" % dflt, sorted(dflt) == ["FCOUNT=0", "LCOUNT=0"], "")
    finish(dump)

def load_findings():
    out = {}
    fn = os.path.join(VERIF, "known_findings.txt")
    if os.path.exists(fn):
        for line in open(fn):
            line = line.strip()
            if line.startswith("finding: "):
                head, _, what = line[9:].partition(" | ")
                p, _, k = head.partition(" key=")
                if PROP in [x.strip() for x in p.replace("property=", "").split(",")]:
                    out[k.strip()] = what
    return out

def finish(dump=""):
    known = load_findings()
    nviol = nknown = 0
    evdir = os.environ.get("VERIF_EVIDENCE_DIR") or os.path.join(VERIF, "evidence")
    rpdir = os.environ.get("VERIF_EVIDENCE_DIR") or os.path.join(VERIF, "replay")
    os.makedirs(evdir, exist_ok=True); os.makedirs(rpdir, exist_ok=True)
    for o in obs:
        if o["status"] == "violation" and o["key"] in known:
            o["status"] = "known-finding"
        if o["status"] == "known-finding":
            nknown += 1
            print("KNOWN-FINDING: property=%s %s %s" % (PROP, o["key"], o["desc"]))
    for o in obs:
        if o["status"] == "violation":
            nviol += 1
            rp = os.path.join(rpdir, "%s-%02d.json" % (PROP, nviol))
            json.dump({"property": PROP, "obligation": o, "rule_text": rules.get(o["rule"], ""),
                       "how_to_replay": "cd /verif && bin/check C19 quick"}, open(rp, "w"), indent=1)
            print("%s: %s: %s — %s" % (o["pos"], o["key"], o["desc"], o["detail"]))
            print("VIOLATION property=%s replay=%s" % (PROP, rp))
    ndis = sum(1 for o in obs if o["status"] == "discharged")
    seed = int(os.environ.get("VERIF_SEED", "0") or 0)
    ev = {"property_id": PROP, "tier": TIER if TIER in ("quick", "thorough") else "quick", "seed": seed, "level": "other",
          "coverage": {
              "obligations": len(obs), "discharged": ndis, "known_findings": nknown,
              "evaluations": len(obs), "distinct_nontrivial": len(set(o["key"] for o in obs)),
              "rule": "one obligation per structural rule instance found in bash's canonical parse of bin/*.sh|bin/*",
              "rules": [{"id": k, "text": v, "obligations": sum(1 for o in obs if o["rule"] == k)} for k, v in sorted(rules.items())],
              "samples": obs[:40],
              "checker_cmd": "bin/check C19 %s" % TIER,
              "trusted_base": ["bash's parser and `declare -f` pretty printer (nothing of the script is executed)",
                               "semantics of rm/ln/mv/flock/exec redirection as documented"],
              "explanation": "Static structural analysis of bin/newpolicy.sh and sibling shell scripts on bash's own parse: %d obligations, %d discharged, %d known findings, %d violations. Not decided: numbering arithmetic beyond the recognised max+1 idiom, flock semantics, the semantic outcome at each kill point." % (len(obs), ndis, nknown, nviol),
              "exhaustive": True, "notes": notes,
              "all_obligation_keys": [o["status"] + " " + o["key"] for o in obs]},
          "assumptions": ["the scripts are run by bash/sh as installed; get-netspoc-approve-conf prints the configured values"],
          "wall_s": time.time() - START, "violations": nviol}
    json.dump(ev, open(os.path.join(evdir, PROP + ".json"), "w"), indent=1)
    print("%s %s: %d obligations, %d discharged, %d known findings, %d violations (%.1fs)" % (PROP, TIER, len(obs), ndis, nknown, nviol, time.time() - START))
    sys.exit(1 if nviol else 0)

# ---------------------------------------------------------------- facts for C12 (R12.4)

DESTRUCTIVE = {"rm", "rmdir", "unlink", "mv", "shred", "truncate"}

def lockdir_facts(target="lockdir"):
    """For every shell script under bin/: the commands that remove or rename entries of a
    directory named `lock` (the per-device lock files of drc / do-approve).  Variables are
    replaced by every value the script assigns to them (assignments and `for V in words`),
    to a fixed point; a path argument with a component `lock` makes the command a hit.
    target "policylock": commands that can remove policies/LOCK instead: a direct path ending
    in policies/LOCK, or a destructive find that starts at the policies directory, reaches
    depth 1 and does not exclude the name LOCK.
    Output: JSON list of {script, ok, commands, detail}; nothing is executed."""
    out = []
    bindir = os.path.join(REPO, "bin")
    for fn in sorted(os.listdir(bindir)):
        p2 = os.path.join(bindir, fn)
        if not os.path.isfile(p2):
            continue
        first = open(p2, errors="replace").readline()
        if not re.match(r"^#!.*\b(sh|bash)\b", first):
            continue
        try:
            tree, _ = parse_script(p2)
        except Exception as e:
            out.append({"script": fn, "ok": False, "commands": 0, "detail": "bash cannot parse the script: %s" % e})
            continue
        cmds = []
        flatten(tree, "<top>", [], cmds)
        vals = {}
        for c in cmds:
            m = re.match(r"^for (\w+) in (.*?);?$", c.text)
            if m:
                vals.setdefault(m.group(1), set()).update(w.strip("\"'") for w in words(m.group(2)))
            for w in c.words:
                m = re.match(r"^([A-Za-z_][A-Za-z0-9_]*)=(.*)$", w)
                if m and w is c.words[0]:
                    vals.setdefault(m.group(1), set()).add(m.group(2).strip("\"'"))
        def expand(word, depth=0):
            res = {word}
            if depth > 3:
                return res
            for v, vs in vals.items():
                for form in ("${%s}" % v, "$%s" % v):
                    if form in word:
                        for val in vs:
                            res |= expand(word.replace(form, val), depth + 1)
            return res
        hits = []
        for c in cmds:
            if not c.words:
                continue
            name = os.path.basename(c.words[0])
            destructive = name in DESTRUCTIVE
            args = c.words[1:]
            if name == "find":
                # find ... | xargs rm
                nxt = [d for d in cmds if d.order == c.order + 1 and d.andor == "|" and d.func == c.func]
                piped = False
                for d in nxt:
                    dn = os.path.basename(d.words[0]) if d.words else ""
                    if dn == "xargs" and any(os.path.basename(w) in DESTRUCTIVE for w in d.words[1:]):
                        piped = True
                destructive = piped or "-delete" in args or any(a in ("-exec", "-execdir", "-ok") and k + 1 < len(args) and os.path.basename(args[k + 1]) in DESTRUCTIVE for k, a in enumerate(args))
                # the start points of find are the words before the first option
                sp = []
                for a in args:
                    if a.startswith("-") or a in ("(", "!"):
                        break
                    sp.append(a)
                args = sp
            if name in ("xargs", "sudo", "env", "nice") and len(args) > 0 and os.path.basename(args[0]) in DESTRUCTIVE:
                destructive = True
            if not destructive:
                continue
            allargs = c.words[1:]
            excludes_lock = False
            mindepth = 0
            for k, a in enumerate(allargs):
                if a == "-name" and k + 1 < len(allargs) and allargs[k + 1].strip("\"'") == "LOCK" and k > 0 and allargs[k - 1] in ("!", "-not"):
                    excludes_lock = True
                if a == "-mindepth" and k + 1 < len(allargs) and allargs[k + 1].isdigit():
                    mindepth = int(allargs[k + 1])
            for a in args:
                if a.startswith("-"):
                    continue
                for e in expand(a.strip("\"'")):
                    if target == "lockdir":
                        hit = re.search(r"(^|/)lock(/|$)", e) is not None
                    else:
                        hit = re.search(r"(^|/)policies/LOCK$", e) is not None or e in ("$LOCK", "LOCK")
                        if name == "find" and re.search(r"(^|/)policies/?$", e) and not excludes_lock and mindepth <= 1:
                            hit = True
                        if name != "find" and re.search(r"(^|/)policies/?$", e) and any(x in ("-r", "-rf", "-fr", "-R") for x in allargs):
                            hit = True
                    if hit:
                        hits.append("%s: `%s` (argument %s can be %s)" % (c.func, c.text, a, e))
                        break
        out.append({"script": fn, "ok": not hits, "commands": len(cmds), "detail": "; ".join(sorted(set(hits)))})
    if target == "lockdir":
        print(json.dumps(out))
    return out

COMPRESSORS = {"bzip2", "gzip", "xz", "zstd", "compress", "lzma", "pbzip2", "pigz"}

def compress_facts():
    """For every shell script under bin/: pipelines that compress files found below the
    policies directory.  missing-approve and do-approve read the files of the policy that
    `current` points to uncompressed, so such a pipeline has to leave that directory out:
    its first find carries `! -name W` where W is a variable assigned from
    $(readlink .../current).  Output: JSON list of {script, ok, commands, pipelines, detail};
    nothing is executed."""
    out = []
    bindir = os.path.join(REPO, "bin")
    for fn in sorted(os.listdir(bindir)):
        p2 = os.path.join(bindir, fn)
        if not os.path.isfile(p2):
            continue
        first = open(p2, errors="replace").readline()
        if not re.match(r"^#!.*\b(sh|bash)\b", first):
            continue
        try:
            tree, _ = parse_script(p2)
        except Exception as e:
            out.append({"script": fn, "ok": False, "commands": 0, "pipelines": 0, "detail": "bash cannot parse the script: %s" % e})
            continue
        cmds = []
        flatten(tree, "<top>", [], cmds)
        vals = {}
        for c in cmds:
            for w in c.words[:1]:
                m = re.match(r"^([A-Za-z_][A-Za-z0-9_]*)=(.*)$", w)
                if m:
                    # the whole text: a command substitution has blanks
                    vals.setdefault(m.group(1), set()).add(c.text[len(m.group(1)) + 1:].strip("\"'"))
        def expand(word, depth=0):
            res = {word}
            if depth > 3:
                return res
            for v, vs in vals.items():
                for form in ("${%s}" % v, "$%s" % v):
                    if form in word:
                        for val in vs:
                            res |= expand(word.replace(form, val), depth + 1)
            return res
        hits, pipes = [], 0
        for c in cmds:
            if not c.words or os.path.basename(c.words[0]) != "find":
                continue
            args = c.words[1:]
            starts = []
            for a in args:
                if a.startswith("-") or a in ("(", "!"):
                    break
                starts.append(a)
            if not any(re.search(r"(^|/)policies/?$", e) for a in starts for e in expand(a.strip("\"'"))):
                continue
            # the pipeline behind this find
            chain, k = [c], c.order + 1
            while True:
                nxt = [d for d in cmds if d.order == k and d.andor == "|" and d.func == c.func]
                if not nxt:
                    break
                chain.append(nxt[0]); k += 1
            compresses = any(os.path.basename(w) in COMPRESSORS for d in chain for w in d.words)
            if not compresses:
                continue
            pipes += 1
            excluded = False
            for k2, a in enumerate(args):
                if a == "-name" and k2 > 0 and args[k2 - 1] in ("!", "-not") and k2 + 1 < len(args):
                    m = re.search(r"\$\{?([A-Za-z_][A-Za-z0-9_]*)", args[k2 + 1])
                    if m and any("readlink" in v and "current" in v for v in vals.get(m.group(1), ())):
                        excluded = True
            if not excluded:
                hits.append("%s: `%s` compresses below the policies directory and does not leave out the directory `current` points to" % (c.func, " | ".join(d.text for d in chain)))
        out.append({"script": fn, "ok": not hits, "commands": len(cmds), "pipelines": pipes, "detail": "; ".join(hits)})
    print(json.dumps(out))
    return out

if __name__ == "__main__":
    if len(sys.argv) > 1 and sys.argv[1] == "--compress-facts":
        compress_facts()
        sys.exit(0)
    if len(sys.argv) > 1 and sys.argv[1] == "--lockdir-facts":
        lockdir_facts()
        sys.exit(0)
    try:
        main()
    except SystemExit:
        raise
    except Exception as e:
        import traceback
        add("internal", "checker-exception", "", str(e), False, traceback.format_exc())
        finish()
